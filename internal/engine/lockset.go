package engine

import (
	"go/token"
	"go/types"
	"sort"
	"strings"

	"golang.org/x/tools/go/ssa"
)

// Lock discipline analysis (DESIGN.md section 2, family D).
//
// Lock identity is type based: "Owner.field" of the mutex (all instances of a struct are
// conflated), a package-level variable's name, or a function-local path. Must-hold locksets are
// a forward dataflow over the SSA CFG (Lock/RLock gen, Unlock/RUnlock kill, deferred releases
// applied at the function's exit), with callee summaries (wrappers that return holding a lock
// generate it, callees that may release a lock kill it) and entry locksets obtained as the
// intersection over all call sites (go statements and asynchronously used function values
// contribute the empty set).

type LockMode uint8

const (
	LockR LockMode = 1
	LockW LockMode = 2
)

// LSet is a must/may lockset; Top is the "all locks" element used to start the fixpoints.
type LSet struct {
	Top bool
	M   map[string]LockMode
}

func (s LSet) Has(id string) bool { return s.Top || s.M[id] != 0 }
func (s LSet) Mode(id string) LockMode {
	if s.Top {
		return LockW
	}
	return s.M[id]
}
func (s LSet) Clone() LSet {
	o := LSet{Top: s.Top, M: map[string]LockMode{}}
	for k, v := range s.M {
		o.M[k] = v
	}
	return o
}
func (s LSet) Equal(o LSet) bool {
	if s.Top != o.Top || len(s.M) != len(o.M) {
		return false
	}
	for k, v := range s.M {
		if o.M[k] != v {
			return false
		}
	}
	return true
}
func (s LSet) String() string {
	if s.Top {
		return "{*}"
	}
	var ks []string
	for k, m := range s.M {
		if m == LockR {
			ks = append(ks, k+"(r)")
		} else {
			ks = append(ks, k)
		}
	}
	sort.Strings(ks)
	return "{" + strings.Join(ks, ",") + "}"
}

// meet is set intersection (weaker mode wins).
func meet(a, b LSet) LSet {
	if a.Top {
		return b.Clone()
	}
	if b.Top {
		return a.Clone()
	}
	o := LSet{M: map[string]LockMode{}}
	for k, v := range a.M {
		if w := b.M[k]; w != 0 {
			if w < v {
				v = w
			}
			o.M[k] = v
		}
	}
	return o
}

func union(a, b LSet) LSet {
	o := a.Clone()
	for k, v := range b.M {
		if o.M[k] < v {
			o.M[k] = v
		}
	}
	return o
}

// LockOp classifies a call on sync.Mutex / sync.RWMutex.
type LockOp struct {
	ID      string
	Acquire bool
	Mode    LockMode
}

func LockOpOf(c ssa.CallInstruction) (LockOp, bool) {
	o := CalleeObj(c.Common())
	if o == nil || o.Pkg() == nil || o.Pkg().Path() != "sync" {
		return LockOp{}, false
	}
	sig, _ := o.Type().(*types.Signature)
	if sig == nil || sig.Recv() == nil {
		return LockOp{}, false
	}
	n := NamedOf(sig.Recv().Type())
	if n == nil || (n.Obj().Name() != "Mutex" && n.Obj().Name() != "RWMutex") {
		return LockOp{}, false
	}
	var op LockOp
	switch o.Name() {
	case "Lock":
		op = LockOp{Acquire: true, Mode: LockW}
	case "RLock":
		op = LockOp{Acquire: true, Mode: LockR}
	case "Unlock":
		op = LockOp{Mode: LockW}
	case "RUnlock":
		op = LockOp{Mode: LockR}
	default:
		return LockOp{}, false
	}
	args := c.Common().Args
	if len(args) == 0 {
		return LockOp{}, false
	}
	op.ID = LockIDOf(args[0])
	return op, true
}

// LockIDOf names the mutex a receiver value denotes.
func LockIDOf(v ssa.Value) string {
	v = Origin(v)
	if u, ok := v.(*ssa.UnOp); ok && u.Op == token.MUL {
		v = Origin(u.X)
	}
	switch x := v.(type) {
	case *ssa.FieldAddr:
		if o, f, ok := FieldOf(x); ok {
			// embedded mutex of an embedded struct: keep the outermost named owner
			return o + "." + f
		}
	case *ssa.Global:
		return x.Name()
	}
	if o, f, ok := FieldOf(v); ok {
		return o + "." + f
	}
	fn := ""
	if in, ok := v.(ssa.Instruction); ok && in.Parent() != nil {
		fn = RelName(in.Parent())
	}
	return "local:" + fn + ":" + PathOf(v)
}

type lockSummary struct {
	acquire     LSet            // held at every exit when entered with nothing held
	release     map[string]bool // may be released (held at entry, possibly not at exit)
	mayHoldExit LSet            // may be held at some exit when entered with nothing held
	mustRelease map[string]bool // released on every path to every exit
	mayAcquire  map[string]LockMode
}

// LockAnalysis holds the results for the whole repository.
type LockAnalysis struct {
	p       *Prog
	fns     []*ssa.Function
	relev   map[*ssa.Function]bool // contains or reaches a lock operation
	sum     map[*ssa.Function]*lockSummary
	entry   map[*ssa.Function]LSet
	before  map[*ssa.Function]map[ssa.Instruction]LSet
	async   map[*ssa.Function]bool // entered with nothing held (go, stored/registered func values)
	Rounds  int
	callers map[*ssa.Function][]ssa.CallInstruction
}

// asyncCallNames: callees that keep a function value and run it later / on another goroutine.
var asyncCallNames = map[string]bool{"Subscribe": true, "AfterFunc": true, "Go": true, "SubscribeAsync": true, "Do": true}

func (la *LockAnalysis) callees(c ssa.CallInstruction) []*ssa.Function {
	cc := c.Common()
	if f := cc.StaticCallee(); f != nil {
		return []*ssa.Function{f}
	}
	if !cc.IsInvoke() {
		// func value: resolved lexically (closure entry sets come from their creation sites)
		if mc, ok := Origin(cc.Value).(*ssa.MakeClosure); ok {
			if f, ok := mc.Fn.(*ssa.Function); ok {
				return []*ssa.Function{f}
			}
		}
		return nil
	}
	var out []*ssa.Function
	for _, f := range la.p.SiteCallees(c) {
		if IsRepoPkg(FuncPkg(f)) {
			out = append(out, f)
		}
	}
	return out
}

// NewLockAnalysis runs the analysis over all repo functions.
func NewLockAnalysis(p *Prog) *LockAnalysis {
	la := &LockAnalysis{p: p, fns: p.AllFuncs(), relev: map[*ssa.Function]bool{}, sum: map[*ssa.Function]*lockSummary{}, entry: map[*ssa.Function]LSet{}, before: map[*ssa.Function]map[ssa.Instruction]LSet{}, async: map[*ssa.Function]bool{}, callers: map[*ssa.Function][]ssa.CallInstruction{}}
	// relevance: direct lock ops, then callers
	calls := map[*ssa.Function][]ssa.CallInstruction{}
	for _, f := range la.fns {
		for _, b := range f.Blocks {
			for _, ins := range b.Instrs {
				c, ok := ins.(ssa.CallInstruction)
				if !ok {
					continue
				}
				calls[f] = append(calls[f], c)
				if _, isOp := LockOpOf(c); isOp {
					la.relev[f] = true
				}
				for _, g := range la.callees(c) {
					la.callers[g] = append(la.callers[g], c)
				}
			}
		}
	}
	for changed := true; changed; {
		changed = false
		for _, f := range la.fns {
			if la.relev[f] {
				continue
			}
			for _, c := range calls[f] {
				for _, g := range la.callees(c) {
					if la.relev[g] {
						la.relev[f] = true
						changed = true
					}
				}
			}
		}
	}
	for _, f := range la.fns {
		la.sum[f] = &lockSummary{acquire: LSet{M: map[string]LockMode{}}, release: map[string]bool{}, mayHoldExit: LSet{M: map[string]LockMode{}}, mustRelease: map[string]bool{}, mayAcquire: map[string]LockMode{}}
	}
	// summaries to a fixpoint
	for round := 0; round < 10; round++ {
		changed := false
		for _, f := range la.fns {
			if !la.relev[f] || f.Blocks == nil {
				continue
			}
			s := la.summarise(f)
			old := la.sum[f]
			if !s.acquire.Equal(old.acquire) || len(s.release) != len(old.release) || !s.mayHoldExit.Equal(old.mayHoldExit) || len(s.mustRelease) != len(old.mustRelease) || len(s.mayAcquire) != len(old.mayAcquire) {
				changed = true
			}
			la.sum[f] = s
		}
		if !changed {
			break
		}
	}
	// asynchronous entries
	for _, f := range la.fns {
		for _, b := range f.Blocks {
			for _, ins := range b.Instrs {
				switch x := ins.(type) {
				case *ssa.Go:
					for _, g := range la.callees(x) {
						la.async[g] = true
					}
				case *ssa.MakeClosure:
					if fn, ok := x.Fn.(*ssa.Function); ok && !closureIsSync(x) {
						la.async[fn] = true
					}
				}
				// named functions / bound methods used as values
				var ops []*ssa.Value
				for _, op := range ins.Operands(ops) {
					if fn, ok := (*op).(*ssa.Function); ok {
						if c, isCall := ins.(ssa.CallInstruction); isCall && c.Common().Value == *op {
							continue
						}
						if _, isMC := ins.(*ssa.MakeClosure); isMC {
							continue
						}
						la.async[fn] = true
					}
				}
			}
		}
	}
	// entry locksets: descending fixpoint
	isRoot := func(f *ssa.Function) bool {
		if la.async[f] {
			return true
		}
		if f.Parent() != nil {
			return false // synchronous closure: entry comes from its creation site
		}
		return len(la.callers[f]) == 0
	}
	for _, f := range la.fns {
		if isRoot(f) {
			la.entry[f] = LSet{M: map[string]LockMode{}}
		} else {
			la.entry[f] = LSet{Top: true}
		}
	}
	for la.Rounds = 0; la.Rounds < 30; la.Rounds++ {
		next := map[*ssa.Function]LSet{}
		for _, f := range la.fns {
			if isRoot(f) {
				next[f] = LSet{M: map[string]LockMode{}}
			} else {
				next[f] = LSet{Top: true}
			}
		}
		for _, f := range la.fns {
			if f.Blocks == nil {
				continue
			}
			bf := la.flowMust(f, la.entry[f])
			la.before[f] = bf
			for _, c := range calls[f] {
				s := bf[c]
				switch c.(type) {
				case *ssa.Go, *ssa.Defer:
					s = LSet{M: map[string]LockMode{}}
				}
				for _, g := range la.callees(c) {
					if la.async[g] {
						continue
					}
					next[g] = meet(next[g], s)
				}
			}
			// synchronous closures inherit the lockset of their creation site
			for _, b := range f.Blocks {
				for _, ins := range b.Instrs {
					if mc, ok := ins.(*ssa.MakeClosure); ok {
						if fn, ok := mc.Fn.(*ssa.Function); ok && !la.async[fn] {
							next[fn] = meet(next[fn], la.closureSite(bf, mc))
						}
					}
				}
			}
		}
		same := true
		for _, f := range la.fns {
			if !next[f].Equal(la.entry[f]) {
				same = false
			}
		}
		la.entry = next
		if same {
			break
		}
	}
	// anything still at Top was never reached from a root: assume nothing held
	for _, f := range la.fns {
		if la.entry[f].Top {
			la.entry[f] = LSet{M: map[string]LockMode{}}
			if f.Blocks != nil {
				la.before[f] = la.flowMust(f, la.entry[f])
			}
		}
	}
	return la
}

// closureIsSync: every use of the closure value is a direct call or an argument of an ordinary
// (non-go, non-defer) call whose callee is not a known registrar; it is not stored anywhere.
func closureIsSync(mc *ssa.MakeClosure) bool {
	var visit func(v ssa.Value, depth int) bool
	visit = func(v ssa.Value, depth int) bool {
		refs := v.Referrers()
		if refs == nil {
			return false
		}
		for _, r := range *refs {
			switch x := r.(type) {
			case *ssa.Call:
				if x.Call.Value == v {
					continue
				}
				if o := CalleeObj(&x.Call); o != nil && asyncCallNames[o.Name()] {
					return false
				}
				if x.Call.IsInvoke() && asyncCallNames[x.Call.Method.Name()] {
					return false
				}
			case *ssa.Go:
				return false
			case *ssa.Defer:
				// runs at exit of the creating function: treated as asynchronous (nothing held)
				return false
			case *ssa.Store:
				// spilled to a local cell and only called from there
				if a, ok := x.Addr.(*ssa.Alloc); ok && x.Val == v && depth < 2 {
					for _, rr := range *a.Referrers() {
						if ld, ok := rr.(*ssa.UnOp); ok {
							if !visit(ld, depth+1) {
								return false
							}
						}
					}
					continue
				}
				return false
			case *ssa.MakeInterface, *ssa.ChangeType, *ssa.Phi:
				if val, ok := r.(ssa.Value); ok && depth < 2 {
					if !visit(val, depth+1) {
						return false
					}
					continue
				}
				return false
			case *ssa.MakeClosure:
				// captured by another closure: follow that closure's own classification
				continue
			case *ssa.DebugRef:
			default:
				return false
			}
		}
		return true
	}
	return visit(mc, 0)
}

// closureSite: the lockset with which a synchronous closure runs — the meet over the calls that
// receive or invoke it in the creating function.
func (la *LockAnalysis) closureSite(bf map[ssa.Instruction]LSet, mc *ssa.MakeClosure) LSet {
	out := LSet{Top: true}
	var visit func(v ssa.Value, depth int)
	visit = func(v ssa.Value, depth int) {
		if v.Referrers() == nil {
			return
		}
		for _, r := range *v.Referrers() {
			switch x := r.(type) {
			case *ssa.Call:
				out = meet(out, bf[x])
			case *ssa.Store:
				if a, ok := x.Addr.(*ssa.Alloc); ok && depth < 2 {
					for _, rr := range *a.Referrers() {
						if ld, ok := rr.(*ssa.UnOp); ok {
							visit(ld, depth+1)
						}
					}
				}
			case *ssa.MakeInterface, *ssa.ChangeType, *ssa.Phi:
				if val, ok := r.(ssa.Value); ok && depth < 2 {
					visit(val, depth+1)
				}
			case *ssa.MakeClosure:
				// used inside a nested closure: that closure's entry is what matters; approximate
				// with the nested closure's own site
				out = meet(out, bf[x])
			}
		}
	}
	visit(mc, 0)
	if out.Top {
		return bf[mc]
	}
	return out
}

// deferredReleases lists the locks that deferred calls of f may release at exit.
func (la *LockAnalysis) deferredReleases(f *ssa.Function) map[string]bool {
	out := map[string]bool{}
	for _, b := range f.Blocks {
		for _, ins := range b.Instrs {
			d, ok := ins.(*ssa.Defer)
			if !ok {
				continue
			}
			if op, isOp := LockOpOf(d); isOp && !op.Acquire {
				out[op.ID] = true
			}
			for _, g := range la.callees(d) {
				for id := range la.sumOf(g).release {
					out[id] = true
				}
			}
		}
	}
	return out
}

// transferMust applies one instruction to a must-hold set (in place).
func (la *LockAnalysis) transferMust(s *LSet, ins ssa.Instruction) {
	c, ok := ins.(*ssa.Call)
	if !ok {
		return
	}
	if op, isOp := LockOpOf(c); isOp {
		if s.Top {
			return
		}
		if op.Acquire {
			if s.M[op.ID] < op.Mode {
				s.M[op.ID] = op.Mode
			}
		} else {
			delete(s.M, op.ID)
		}
		return
	}
	cal := la.callees(c)
	if len(cal) == 0 || s.Top {
		return
	}
	gen := LSet{Top: true}
	for _, g := range cal {
		sm := la.sumOf(g)
		if sm == nil {
			gen = LSet{M: map[string]LockMode{}}
			continue
		}
		for id := range sm.release {
			delete(s.M, id)
		}
		gen = meet(gen, sm.acquire)
	}
	if !gen.Top {
		for id, m := range gen.M {
			if s.M[id] < m {
				s.M[id] = m
			}
		}
	}
}

// flowMust computes the must-hold set before every instruction of f.
func (la *LockAnalysis) flowMust(f *ssa.Function, entry LSet) map[ssa.Instruction]LSet {
	before := map[ssa.Instruction]LSet{}
	if !la.relev[f] {
		for _, b := range f.Blocks {
			for _, ins := range b.Instrs {
				before[ins] = entry
			}
		}
		return before
	}
	in := make([]LSet, len(f.Blocks))
	out := make([]LSet, len(f.Blocks))
	for i := range in {
		in[i] = LSet{Top: true}
		out[i] = LSet{Top: true}
	}
	for changed := true; changed; {
		changed = false
		for _, b := range f.Blocks {
			var s LSet
			if b.Index == 0 {
				s = entry.Clone()
			} else {
				s = LSet{Top: true}
				for _, pr := range b.Preds {
					s = meet(s, out[pr.Index])
				}
				if b == f.Recover {
					s = LSet{M: map[string]LockMode{}}
				}
			}
			in[b.Index] = s
			cur := s.Clone()
			for _, ins := range b.Instrs {
				la.transferMust(&cur, ins)
			}
			if !cur.Equal(out[b.Index]) {
				out[b.Index] = cur
				changed = true
			}
		}
	}
	for _, b := range f.Blocks {
		cur := in[b.Index].Clone()
		for _, ins := range b.Instrs {
			before[ins] = cur.Clone()
			la.transferMust(&cur, ins)
		}
	}
	return before
}

// flowMay computes the may-hold set before every instruction of f (entered with `entry` held).
func (la *LockAnalysis) flowMay(f *ssa.Function, entry LSet) map[ssa.Instruction]LSet {
	transfer := func(s *LSet, ins ssa.Instruction) {
		c, ok := ins.(*ssa.Call)
		if !ok {
			return
		}
		if op, isOp := LockOpOf(c); isOp {
			if op.Acquire {
				if s.M[op.ID] < op.Mode {
					s.M[op.ID] = op.Mode
				}
			} else {
				delete(s.M, op.ID)
			}
			return
		}
		cal := la.callees(c)
		if len(cal) == 0 {
			return
		}
		// released by every callee on every path
		first := true
		mr := map[string]bool{}
		for _, g := range cal {
			sm := la.sumOf(g)
			if first {
				for id := range sm.mustRelease {
					mr[id] = true
				}
				first = false
			} else {
				for id := range mr {
					if !sm.mustRelease[id] {
						delete(mr, id)
					}
				}
			}
		}
		for id := range mr {
			delete(s.M, id)
		}
		for _, g := range cal {
			for id, m := range la.sumOf(g).mayHoldExit.M {
				if s.M[id] < m {
					s.M[id] = m
				}
			}
		}
	}
	in := make([]LSet, len(f.Blocks))
	out := make([]LSet, len(f.Blocks))
	for i := range in {
		in[i] = LSet{M: map[string]LockMode{}}
		out[i] = LSet{M: map[string]LockMode{}}
	}
	for changed := true; changed; {
		changed = false
		for _, b := range f.Blocks {
			s := LSet{M: map[string]LockMode{}}
			if b.Index == 0 {
				s = entry.Clone()
			}
			for _, pr := range b.Preds {
				s = union(s, out[pr.Index])
			}
			in[b.Index] = s
			cur := s.Clone()
			for _, ins := range b.Instrs {
				transfer(&cur, ins)
			}
			if !cur.Equal(out[b.Index]) {
				out[b.Index] = cur
				changed = true
			}
		}
	}
	before := map[ssa.Instruction]LSet{}
	for _, b := range f.Blocks {
		cur := in[b.Index].Clone()
		for _, ins := range b.Instrs {
			before[ins] = cur.Clone()
			transfer(&cur, ins)
		}
	}
	return before
}

func (la *LockAnalysis) summarise(f *ssa.Function) *lockSummary {
	s := &lockSummary{acquire: LSet{Top: true}, release: map[string]bool{}, mayHoldExit: LSet{M: map[string]LockMode{}}, mustRelease: map[string]bool{}, mayAcquire: map[string]LockMode{}}
	empty := LSet{M: map[string]LockMode{}}
	bf := la.flowMust(f, empty)
	def := la.deferredReleases(f)
	nret := 0
	for _, b := range f.Blocks {
		for _, ins := range b.Instrs {
			if c, ok := ins.(*ssa.Call); ok {
				if op, isOp := LockOpOf(c); isOp {
					if op.Acquire {
						if s.mayAcquire[op.ID] < op.Mode {
							s.mayAcquire[op.ID] = op.Mode
						}
					} else {
						s.release[op.ID] = true
					}
				}
				for _, g := range la.callees(c) {
					for id, m := range la.sumOf(g).mayAcquire {
						if s.mayAcquire[id] < m {
							s.mayAcquire[id] = m
						}
					}
					for id := range la.sumOf(g).release {
						s.release[id] = true
					}
				}
			}
			if ret, ok := ins.(*ssa.Return); ok {
				nret++
				e := bf[ret].Clone()
				for id := range def {
					delete(e.M, id)
				}
				s.acquire = meet(s.acquire, e)
			}
		}
	}
	for id := range def {
		s.release[id] = true
	}
	if nret == 0 || s.acquire.Top {
		s.acquire = LSet{M: map[string]LockMode{}}
	}
	// a lock both acquired and released inside is not "released" for a caller that does not hold it;
	// it stays in release (conservative for must-hold).
	// may-hold at exit / must-release
	universe := LSet{M: map[string]LockMode{}}
	for id := range s.release {
		universe.M[id] = LockW
	}
	my := la.flowMay(f, empty)
	mu := la.flowMay(f, universe)
	first := true
	for _, b := range f.Blocks {
		for _, ins := range b.Instrs {
			ret, ok := ins.(*ssa.Return)
			if !ok {
				continue
			}
			e := my[ret].Clone()
			for id := range def {
				delete(e.M, id)
			}
			s.mayHoldExit = union(s.mayHoldExit, e)
			u := mu[ret]
			if first {
				for id := range universe.M {
					if !u.Has(id) {
						s.mustRelease[id] = true
					}
				}
				first = false
			} else {
				for id := range s.mustRelease {
					if u.Has(id) {
						delete(s.mustRelease, id)
					}
				}
			}
		}
	}
	return s
}

// ---------------------------------------------------------------- queries

// HeldAt returns the must-hold lockset immediately before ins.
func (la *LockAnalysis) HeldAt(ins ssa.Instruction) LSet {
	f := ins.Parent()
	if bf := la.before[f]; bf != nil {
		if s, ok := bf[ins]; ok {
			return s
		}
	}
	return LSet{M: map[string]LockMode{}}
}

func (la *LockAnalysis) Entry(f *ssa.Function) LSet { return la.entry[f] }
func (la *LockAnalysis) Async(f *ssa.Function) bool { return la.async[f] }
func (la *LockAnalysis) Relevant(f *ssa.Function) bool {
	return la.relev[f]
}
func (la *LockAnalysis) MayAcquire(f *ssa.Function) map[string]LockMode {
	if s := la.sum[f]; s != nil {
		return s.mayAcquire
	}
	return nil
}
func (la *LockAnalysis) Acquires(f *ssa.Function) LSet {
	if s := la.sum[f]; s != nil {
		return s.acquire
	}
	return LSet{}
}
func (la *LockAnalysis) MayHoldAtExit(f *ssa.Function) LSet {
	if s := la.sum[f]; s != nil {
		return s.mayHoldExit
	}
	return LSet{}
}
func (la *LockAnalysis) Releases(f *ssa.Function) map[string]bool {
	if s := la.sum[f]; s != nil {
		return s.release
	}
	return nil
}
func (la *LockAnalysis) Callees(c ssa.CallInstruction) []*ssa.Function { return la.callees(c) }
func (la *LockAnalysis) CallSites(f *ssa.Function) []ssa.CallInstruction {
	return la.callers[f]
}
func (la *LockAnalysis) MayBefore(f *ssa.Function) map[ssa.Instruction]LSet {
	return la.flowMay(f, LSet{M: map[string]LockMode{}})
}
func (la *LockAnalysis) DeferredReleases(f *ssa.Function) map[string]bool {
	return la.deferredReleases(f)
}

var emptySummary = &lockSummary{acquire: LSet{M: map[string]LockMode{}}, release: map[string]bool{}, mayHoldExit: LSet{M: map[string]LockMode{}}, mustRelease: map[string]bool{}, mayAcquire: map[string]LockMode{}}

func (la *LockAnalysis) sumOf(f *ssa.Function) *lockSummary {
	if s := la.sum[f]; s != nil {
		return s
	}
	return emptySummary
}
